"""C05 - merger lookups and seeks behave like one table holding the merged content.

R1 lookup constructors: merger_iter/get/get_prefix/get_range are built from the matching
   per-source lookups with the function's own key parameters; every non-NULL per-source
   iterator is registered for destruction and offered to the heap; an empty result frees
   the iterator object and returns NULL.
R2 forward-seek shortcut (T-cmp rows 13, 14): after next returned K every head is beyond K,
   so only sign(target, cur_key) = GT may skip the full re-seek; in the forward loop a head is
   re-sought iff sign(target, head) = GT.
R3 seek clears `finished` and `pending` first and returns success on every path.
R5 heap discipline (rules/heaprule.py): the heap rebuilt by a seek (heap_heapify) and maintained by pop / replace is a heap for every ordering of up to 5 (6 thorough) heads.
R6 dispatch wiring (rules/dispatch.py): the mtbl_iter / mtbl_source function tables are registered, called (own closure, own slot, parameters forwarded in order) and filled at every construction site without cross-wiring slots of equal signature.
"""
import re
from .common import *

EXPLANATION = ("static decision-table rules over the abstract paths of merger_iter_seek (which abstract comparison results "
               "reach the full re-seek and which the per-head forward loop) and constructor argument-identity rules for "
               "the four merger lookups; see DESIGN 3 C05")
DESIGN_REF = "DESIGN.md section 3, C05"

U = "mtbl/merger.c"


def target_vs(f, call, other):
    """orientation of bytes_compare(target..., X...) where target = params (1,2) of the seek function:
    +1 target first, -1 target second, 0 not this comparison.  `other(p, l)` recognises X."""
    a = [strip(x) for x in call_args(call)]
    if len(a) != 4:
        return 0

    def tgt(p, l):
        return (p["k"] == "DeclRefExpr" and p.get("dk") == "param" and p["idx"] == 1 and
                l["k"] == "DeclRefExpr" and l.get("dk") == "param" and l["idx"] == 2)

    if tgt(a[0], a[1]) and other(a[2], a[3]):
        return 1
    if other(a[0], a[1]) and tgt(a[2], a[3]):
        return -1
    return 0


def is_cur_key(p, l):
    if not (is_call(p, "ubuf_data") and is_call(l, ("ubuf_size", "ubuf_bytes"))):
        return False
    x, y = strip(call_args(p)[0]), strip(call_args(l)[0])
    return x["k"] == "MemberExpr" and x["field"] == "cur_key" and y["k"] == "MemberExpr" and y["field"] == "cur_key"


def is_head_key(p, l):
    return p["k"] == "MemberExpr" and p["field"] == "key" and p.get("rec") == "entry" and \
        l["k"] == "MemberExpr" and l["field"] == "len_key" and canon(p["kids"][0]) == canon(l["kids"][0])


def run(ctx, res):
    prog, cg = ctx.prog, ctx.cg
    mres = prog.enums["mtbl_res"]
    OKV = mres["mtbl_res_success"]
    seek = prog.need("merger_iter_seek", U)
    res.saw(seek)
    ev = APE.run(prog, cg, seek, bound=APE.BOUND)
    res.floor("C05.R2", 4)
    res.floor("C05.R3", 2)
    res.floor("C05.R4", 2)
    n_back = n_fwd = 0
    # is the iterator's `pending` flag state that outlives a call of next (read there before it is written)?  If next sets it
    # before reading it on every path - or the flag does not exist - a seek has nothing to reset there.
    pending_live = False
    rec_it = prog.record("merger_iter", U)
    if rec_it is not None and any(f_["name"] == "pending" for f_ in rec_it["fields"]):
        nx = prog.need("merger_iter_next", U)
        for p_ in APE.run(prog, cg, nx, bound=1).paths:
            wrote = False
            for e_ in p_.events:
                if e_.kind == "store" and re.sub(r"@\d+", "", e_.a).endswith("->pending"):
                    wrote = True
                    break
                if e_.kind == "branch" and "->pending@" in str(e_.a):
                    break
            if not wrote and any("->pending@" in a_ for (a_, b_) in p_.cons):
                pending_live = True
    for p in ev.paths:
        evs = [e for e in p.events if e.kind != "branch"]
        # which locals hold "all entries" elements vs the heap head
        reseek_all = any(e.kind == "call" and e.a in ("heap_heapify", "heap_clip", "heap_reset") for e in evs) or \
            any(e.kind == "call" and e.a == "mtbl_iter_seek" and "entry_vec_value" in APE.vstr(e.b[0]) for e in evs)
        # the locals are tracked by value: an entry taken from entry_vec_value(...) carries that in its symbol
        for i, e in enumerate(evs):
            if e.kind != "call" or e.a != "bytes_compare":
                continue
            o = target_vs(seek, e.node, is_cur_key)
            if o:
                c = p.cons.get((APE.vstr(e.c), "#0"))
                if c is None:
                    continue
                if o < 0:
                    c = APE.mirror(c)
                n_back += 1
                if not reseek_all:
                    # the shortcut was taken
                    res.check(c <= frozenset((GT,)), "C05.R2", site(seek, "cmp(target,cur_key):shortcut"),
                              "per-head forward path only when sign(target,cur_key)=GT",
                              "seek skips the full re-seek although sign(target, last returned key) may be %s: a seek to the key "
                              "just returned leaves every head beyond it" % sorted(c - {GT}), seek.loc(e.node), p.describe(seek))
                else:
                    res.ok("C05.R2", site(seek, "cmp(target,cur_key):reseek-all[%s]" % "".join(sorted(c))), "full re-seek of every source")
                continue
            o = target_vs(seek, e.node, is_head_key)
            if o:
                c = p.cons.get((APE.vstr(e.c), "#0"))
                if c is None:
                    continue
                if o < 0:
                    c = APE.mirror(c)
                n_fwd += 1
                # what follows until the next comparison / end
                nxt = []
                for x in evs[i + 1:]:
                    if x.kind == "call" and x.a == "bytes_compare":
                        break
                    nxt.append(x)
                sought = any(x.kind == "call" and x.a == "mtbl_iter_seek" for x in nxt)
                if sought:
                    res.check(c <= frozenset((GT,)), "C05.R2", site(seek, "cmp(target,head):seek-head"),
                              "a head is re-sought only when the target is beyond it",
                              "head re-sought although sign(target, head) may be %s" % sorted(c - {GT}), seek.loc(e.node), p.describe(seek))
                else:
                    res.check(GT not in c, "C05.R2", site(seek, "cmp(target,head):stop"),
                              "forward loop stops only when the head is at or beyond the target",
                              "forward loop stops with a head still before the target", seek.loc(e.node), p.describe(seek))
        if p.end == "exit" and not reseek_all:
            moved = [e for e in evs if e.kind == "call" and e.a in ("mtbl_iter_seek", "heap_pop", "heap_replace")]
            if moved:
                last = evs.index(moved[-1])
                rec = [e for e in evs[last:] if e.kind == "call" and e.a == "ubuf_append" and canon(call_args(e.node)[0]).endswith("->cur_key")
                       and e.b[1] == ("s", seek.params[1]["name"]) and e.b[2] == ("s", seek.params[2]["name"])]
                clip = [e for e in evs[last:] if e.kind == "call" and e.a in ("ubuf_clip", "ubuf_reset") and canon(call_args(e.node)[0]).endswith("->cur_key")]
                res.check(len(rec) == 1 and clip and evs.index(clip[0]) < evs.index(rec[0]), "C05.R4", site(seek, "forward-seek-records-target"),
                          "a forward seek that repositioned or dropped any head records the target as the reference key for later backward detection",
                          "a forward seek repositions or drops a source (%s) without recording the seek key: a later seek to a key between the last returned key "
                          "and this target is taken for a forward seek and the dropped source's entries are lost" % sorted(set(e.a for e in moved)),
                          seek.loc(moved[-1].node), p.describe(seek))
        if p.end == "exit":
            fin_st = [e for e in evs if e.kind == "store" and e.a.endswith("->finished")]
            pen_st = [e for e in evs if e.kind == "store" and e.a.endswith("->pending")]
            moving = [i for i, e in enumerate(evs) if e.kind == "call" and e.a in ("mtbl_iter_seek", "heap_pop", "heap_replace", "heap_clip", "heap_add", "heap_heapify", "entry_fill")]
            firstmove = moving[0] if moving else len(evs)
            okclear = bool(fin_st) and fin_st[0].b == ("c", 0) and evs.index(fin_st[0]) < firstmove
            if pending_live:
                # `pending` survives from one call of next to the following one: seek has to reset it as well
                okclear = okclear and bool(pen_st) and all(e.b == ("c", 0) for e in pen_st) and evs.index(pen_st[0]) < firstmove
            first = [e for e in evs if e.kind == "store" and not e.a.isidentifier()][:2]
            res.check(okclear, "C05.R3", site(seek, "entry"),
                      "seek clears finished and pending before anything else",
                      "seek does not start by clearing finished and pending (%s)" % [repr(e) for e in first], seek.loc(seek.body))
            res.check(p.ret() == ("c", OKV), "C05.R3", site(seek, "return"), "seek returns success",
                      "seek returns %s" % (APE.vstr(p.ret()) if p.ret() else None), None, p.describe(seek))
    if n_back == 0 or n_fwd == 0:
        raise BrokenAnalysis("merger_iter_seek: comparison sites not recognised (backward %d, forward %d)" % (n_back, n_fwd))

    # ---- R1 constructors --------------------------------------------------------
    res.floor("C05.R1", 12)
    # Decided at the four entry points the merger installs in its source (slots of mtbl_source_init), on their paths, with
    # delegation between those entry points followed (merger_get may be "the range [key, key]" by calling merger_get_range):
    # every per-source lookup is the right source operation with the entry point's own key arguments, the sources are taken
    # as elements 0, 1, 2, ... of the merger's source vector, and the walk ends only when the index has reached its size.
    lookups = {"mtbl_source_iter", "mtbl_source_get", "mtbl_source_get_prefix", "mtbl_source_get_range"}
    slotfn = {}
    for i_, kind in ((0, "iter"), (1, "get"), (2, "get_prefix"), (3, "get_range")):
        cands = [n_ for n_ in cg.param_funcs.get(("mtbl_source_init", i_), ()) if prog.func(n_, U) is not None and prog.func(n_, U).file.endswith("merger.c")]
        if len(cands) != 1:
            raise BrokenAnalysis("merger source slot %d: expected one merger function, found %s" % (i_, sorted(cands)))
        slotfn[kind] = prog.func(cands[0], U)
    want = {}
    for kind, f_ in slotfn.items():
        want[f_.name] = {"iter": [("mtbl_source_iter", [])],
                         "get": [("mtbl_source_get_range", [1, 2, 1, 2]), ("mtbl_source_get", [1, 2])],
                         "get_prefix": [("mtbl_source_get_prefix", [1, 2])],
                         "get_range": [("mtbl_source_get_range", [1, 2, 3, 4])]}[kind]
    siblings = tuple(f_.name for f_ in slotfn.values())
    for fn, accepted in want.items():
        f = prog.need(fn, U)
        res.saw(f)
        pn = [q["name"] for q in f.params]
        evp = APE.run(prog, cg, f, bound=APE.BOUND, inline=("*static",), max_paths=40000)
        nlook = 0
        for p in evp.paths:
            evs = [e for e in p.events if e.kind == "call"]
            looks = [e for e in evs if e.a in lookups]
            for k_, e in enumerate(looks):
                nlook += 1
                okop = any(e.a == nm and list(e.b[1:]) == [("s", pn[i]) for i in idx] for nm, idx in accepted)
                # the source: element k of the merger's source vector
                src = [x for x in evs if x.a == "source_vec_value" and x.c == e.b[0]]
                oksrc = len(src) >= 1 and strip_tags(APE.vstr(src[0].b[0])).endswith("->sources") and src[0].b[1] == ("c", k_)
                res.check(okop and oksrc, "C05.R1", site(f, "per-source-lookup"),
                          "%s is built from %s over every source" % (fn, accepted[0][0]),
                          "%s is built from %s(%s) on source %s" % (fn, e.a, ",".join(APE.vstr(x) for x in e.b[1:]),
                                                                      "%s[%s]" % (APE.vstr(src[0].b[0]), APE.vstr(src[0].b[1])) if src else APE.vstr(e.b[0])),
                          f.loc(e.node), p.describe(f))
            if p.end == "exit":
                done = False
                for (a_, b_), v in p.cons.items():
                    m_ = re.match(r"^source_vec_size\((.*?)\)(@\d+)?$", a_)
                    if m_ and strip_tags(m_.group(1)).endswith("->sources") and b_ == "#%d" % len(looks) and GT not in v:
                        done = True
                res.check(done, "C05.R1", site(f, "all-sources-loop"), "the walk over the sources ends only when the index has reached their number",
                          "the per-source loop does not cover every source: a path leaves it after %d source(s) without having established that there are no more" % len(looks),
                          f.loc(f.body), p.describe(f))
        if nlook == 0:
            res.bad("C05.R1", site(f, "per-source-lookup"), "%s performs no per-source lookup" % fn, f.loc(f.body))
        # paths: non-NULL iterator -> iter_vec_add and merger_iter_add_entry with it
        for p in evp.paths:
            evs = [e for e in p.events if e.kind == "call"]
            for i, e in enumerate(evs):
                if e.a in lookups:
                    c = p.cons.get((APE.vstr(e.c), "#0"))
                    nonnull = (c is not None and EQ not in c) or fn == slotfn["iter"].name
                    isnull = c is not None and c == frozenset((EQ,))
                    rest = []
                    for x in evs[i + 1:]:
                        if x.a in lookups:
                            break
                        rest.append(x)
                    reg = [x for x in rest if x.a == "iter_vec_add" and len(x.b) > 1 and x.b[1] == e.c]
                    # offered: an entry is created for it (the iterator is stored into an entry's `it`), wherever that happens
                    off = [x for x in p.events if x.kind == "store" and strip_tags(x.a).endswith("->it") and x.b == e.c]
                    if nonnull:
                        res.check(len(reg) == 1 and len(off) == 1, "C05.R1", site(f, "register+offer"),
                                  "non-NULL per-source iterator is registered for destruction and offered to the heap once",
                                  "per-source iterator registered %d time(s), offered %d time(s)" % (len(reg), len(off)),
                                  f.loc(e.node), p.describe(f))
                    elif isnull:
                        res.check(not reg and not off, "C05.R1", site(f, "null-iterator"),
                                  "NULL per-source iterator is skipped", "NULL per-source iterator is used", f.loc(e.node), p.describe(f))
            if p.end == "exit" and fn != slotfn["iter"].name:
                # empty result: entry_vec_size(it->entries) == 0 -> merger_iter_free + return NULL
                # the decision "did any source contribute an entry": the first test of the entries vector's size on the path
                # (later ones belong to the clean-up loop of the give-up branch)
                decided = False
                for (a, b), v in p.cons.items():
                    if a.startswith("entry_vec_size(") and b == "#0" and not decided:
                        decided = True
                        if v == frozenset((EQ,)):
                            # the iterator object is given up: its allocation is freed on this path
                            alloc0 = next((x.c for x in evs if x.a in ("my_calloc", "calloc", "my_malloc")), None)
                            fr = [x for x in evs if x.a in ("free", "my_free") and x.b and x.b[0] == alloc0]
                            res.check(len(fr) == 1 and p.ret() == ("c", 0), "C05.R1", site(f, "empty-result"),
                                      "no entry: iterator object freed, NULL returned",
                                      "empty lookup result does not free the iterator and return NULL", f.loc(f.body), p.describe(f))
                        else:
                            res.check(p.ret() is not None and p.ret()[0] == "s" and "mtbl_iter_init" in p.ret()[1],
                                      "C05.R1", site(f, "non-empty-result"), "entries present: iterator returned",
                                      "non-empty lookup does not return an iterator", f.loc(f.body), p.describe(f))

    # ---- heap discipline ----------------------------------------------------------------------
    from . import heaprule
    heaprule.check(ctx, res, "C05.R5")
    heap_ready(ctx, res, "C05.R7")

    # ---- dispatch wiring --------------------------------------------------------------------------
    from . import dispatch
    dispatch.check(ctx, res, "C05.R6")


def heap_ready(ctx, res, rule):
    """Every iterator the merger hands out starts with a heap in heap order: on each path of the four installed entry points
    (internal functions in line) that returns an iterator, an entry put on the heap without sifting (heap_add) is followed,
    before the return, by heap_heapify; heap_push sifts by itself (the heap's own algorithms: rules/heaprule.py).  The first
    next() takes the top of the heap for the smallest head - with the heads merely in source order it is not."""
    prog, cg = ctx.prog, ctx.cg
    res.floor(rule, 4)
    for i_ in range(4):
        cands = [n_ for n_ in cg.param_funcs.get(("mtbl_source_init", i_), ()) if prog.func(n_, U) is not None and prog.func(n_, U).file.endswith("merger.c")]
        if len(cands) != 1:
            raise BrokenAnalysis("merger source slot %d: expected one merger function, found %s" % (i_, sorted(cands)))
        f = prog.func(cands[0], U)
        res.saw(f)
        bad = None
        n = 0
        for p in APE.run(prog, cg, f, bound=APE.BOUND, inline=("*static",), max_paths=40000).paths:
            if p.end != "exit" or p.ret() is None or p.ret() == ("c", 0):
                continue
            n += 1
            evs = [e for e in p.events if e.kind == "call"]
            adds = [i for i, e in enumerate(evs) if e.a == "heap_add"]
            hfy = [i for i, e in enumerate(evs) if e.a == "heap_heapify"]
            if adds and (not hfy or hfy[-1] < adds[-1]):
                bad = p
                break
        if n == 0:
            raise BrokenAnalysis("%s: no path that returns an iterator" % f.name)
        res.check(bad is None, rule, site(f, "heap-in-order-at-return"), "entries are pushed (sifted) or the heap is heapified before the iterator is returned",
                  "%s returns an iterator whose heap was filled with heap_add and not heapified afterwards: the first next() does not start with the smallest key" % f.name,
                  f.loc(f.body), bad.describe(f) if bad else None)
