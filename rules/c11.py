"""C11 - every well-formed MTBL file is readable, not only the ones today's writer emits.

R1 version switch siblings: the three decode sites of a framed block agree - V1: u32le length
   at +0, V2: varint64 at +0, CRC at +len_len, payload at +len_len+4; magic -> version map.
R2 restart-array width mirror of the writer (same threshold, 4/8-byte elements).
R3 single-byte fast path of decode_entry guarded by all three values < 128.
R4 parse sequence equals T-format; the reader takes `shared` from the file and never reads
   the writer's restart interval.
D  rests on: C02 (lookups on independently encoded files go through the reader's lookup path); C03 (seeks on independently encoded files go through the reader's seek path); C16 (decoding of every length and offset) - re-run here as <id>.D.<rule>.
"""
import re
from .common import *
from . import fmt
from . import c10

EXPLANATION = ("static sibling agreement of the three reader-side framing decoders per format version, of the reader's restart-array "
               "interpretation with the writer's, and of the entry parse sequence with the format table (abstract path evaluation); "
               "behaviour on encodings the writer never produces is exactly what only an independent encoder can exercise and is not decided; "
               "see DESIGN 3 C11")
DESIGN_REF = "DESIGN.md section 3, C11"


def clean(x):
    return re.sub(r"@L?\d+", "", x)


def _split_amp(t):
    """'&A[I]' -> (A, I) for a top-level address-of-element term, else None."""
    if not (t.startswith("&") and t.endswith("]")):
        return None
    depth = 0
    for i in range(len(t) - 1, -1, -1):
        if t[i] == "]":
            depth += 1
        elif t[i] == "[":
            depth -= 1
            if depth == 0:
                return t[1:i], t[i + 1:-1]
    return None


def terms(x):
    """Additive terms of a pointer expression string as a list ('#N' for the constant, '-t' for subtracted terms):
    '&A[I]' = A + I, nested sums and differences flattened, constants folded."""
    acc = {}
    const = [0]

    def add(expr, sign):
        t, c = linsum(expr, tags=True)
        const[0] += sign * c
        for k, v in t.items():
            sp = _split_amp(k)
            if sp:
                add(sp[0], sign * v)
                add(sp[1], sign * v)
            else:
                acc[k] = acc.get(k, 0) + sign * v
    add(clean(x).strip(), 1)
    out = []
    for k, v in sorted(acc.items()):
        if v:
            out += [k] * v if v > 0 else ["-" + k] * (-v)
    if const[0] > 0:
        out.append("#%d" % const[0])
    elif const[0] < 0:
        out.append("-#%d" % (-const[0]))
    return out


def norm(ts):
    c = sum(int(t[1:]) for t in ts if re.match(r"^#\d+$", t))
    syms = sorted(t for t in ts if not re.match(r"^#\d+$", t))
    return syms + (["#%d" % c] if c else [])


def diff(a, b):
    """a - b as additive terms; constants are subtracted numerically."""
    isc = lambda t: re.match(r"^#\d+$", t) is not None
    ca = sum(int(t[1:]) for t in a if isc(t))
    cb = sum(int(t[1:]) for t in b if isc(t))
    a = [t for t in a if not isc(t)]
    for t in b:
        if isc(t):
            continue
        if t in a:
            a.remove(t)
        else:
            a.append("-" + t)
    out = sorted(a)
    if ca - cb > 0:
        out.append("#%d" % (ca - cb))
    elif ca - cb < 0:
        out.append("-#%d" % (cb - ca))
    return out


def run(ctx, res):
    prog = ctx.prog
    fv = prog.enums.get("mtbl_file_version", {})
    V1 = fv.get("MTBL_FORMAT_V1")
    res.floor("C11.R1", 6)
    have_crc = {}
    for f, cg in fmt.frame_sites(ctx):
        res.saw(f)
        ev = APE.run(prog, cg, f, bound=APE.BOUND)
        seen = set()
        for p in ev.paths:
            ver = None
            for (a, b), v in p.cons.items():
                if ("file_version" in a) and b == "#%d" % V1:
                    ver = "V1" if v == frozenset((EQ,)) else "V2"
            if ver is None:
                continue
            evs = [e for e in p.events if e.kind != "branch"]
            lens = [e for e in evs if e.kind == "call" and ((ver == "V1" and e.a == "mtbl_fixed_decode32") or (ver == "V2" and e.a == "mtbl_varint_decode64"))]
            if not lens:
                continue
            le = lens[0]
            base = terms(APE.vstr(le.b[0]))
            LL = (["#4"] if ver == "V1" else [clean(APE.vstr(le.c))])
            length = le.c if ver == "V1" else le.outs.get(1)
            # one frame: from its length decode up to the next frame's length decode
            i0 = evs.index(le)
            i1 = evs.index(lens[1]) if len(lens) > 1 else len(evs)
            if ver == "V1" and len(lens) > 1:
                # the CRC read is also a fixed_decode32: the next *length* decode is the third one
                i1 = evs.index(lens[2]) if len(lens) > 2 else len(evs)
            frame = evs[i0:i1]
            crcs = [e for e in frame if e.kind == "call" and e.a == "mtbl_fixed_decode32" and e is not le]
            consumers = []
            for e in frame:
                if e.kind == "call" and e.a in ("mtbl_crc32c", "block_init", "mtbl_decompress") and e is not le:
                    consumers.append(e)
                    if e.a == "mtbl_decompress":
                        break
            if crcs:
                d = diff(terms(APE.vstr(crcs[0].b[0])), base)
                have_crc[(f.name, ver)] = True
                res.check(d == norm(LL), "C11.R1", site(f, "%s:crc-offset" % ver), "%s: stored CRC read at +length-of-length" % ver,
                          "%s (%s): the stored CRC is read at base+%s, the format has it at base+%s" % (f.name, ver, d, norm(LL)), f.loc(crcs[0].node), p.describe(f))
            for c_ in consumers:
                ai = 1 if c_.a == "mtbl_decompress" else 0
                d = diff(terms(APE.vstr(c_.b[ai])), base)
                seen.add(ver)
                res.check(d == norm(LL + ["#4"]), "C11.R1", site(f, "%s:payload-offset:%s" % (ver, c_.a)), "%s: payload starts at +length-of-length+4" % ver,
                          "%s (%s): %s is given the bytes at base+%s, the payload is at base+%s" % (f.name, ver, c_.a, d, norm(LL + ["#4"])), f.loc(c_.node), p.describe(f))
                res.check(length is not None and clean(APE.vstr(c_.b[ai + 1])) == clean(APE.vstr(length)), "C11.R1", site(f, "%s:payload-length:%s" % (ver, c_.a)),
                          "%s: payload length is the decoded length" % ver,
                          "%s (%s): %s is given length %s, decoded length is %s" % (f.name, ver, c_.a, APE.vstr(c_.b[ai + 1]), APE.vstr(length) if length else None),
                          f.loc(c_.node), p.describe(f))
            d0 = diff(base, base)
        for ver in ("V1", "V2"):
            res.check(ver in seen, "C11.R1", site(f, "%s:handled" % ver), "%s framing is decoded" % ver, "%s never decodes a %s frame" % (f.name, ver), f.loc(f.body))
            res.check(have_crc.get((f.name, ver)), "C11.R1", site(f, "%s:crc-read" % ver), "%s: stored CRC is read on some path" % ver,
                      "%s never reads the stored CRC of a %s frame" % (f.name, ver), f.loc(f.body))
    # magic -> version (from C10's reader analysis)
    sub = type(res)(res.prop, res.tier)
    c10.run(ctx, sub)
    for rule, site_, ok, how in sub.obs:
        if site_ == "metadata_read:magic->version":
            res.check(ok, "C11.R1", site_, how, how)

    # ---- R2, R4 -----------------------------------------------------------------------------
    res.floor("C11.R2", 5)
    fmt.restart_width_check(ctx, res, "C11.R2")
    res.floor("C11.R4", 4)
    fmt.entry_parse_check(ctx, res, "C11.R4")
    # R3 is part of the parse check (fast-path guard); count it under its own id as well
    d = prog.need("decode_entry", fmt.BL)
    consts = [const_val(n["kids"][1]) for n in walk(d.body) if n["k"] == "BinaryOperator" and n.get("op") == "<" and const_val(n["kids"][1]) is not None
              and "|" in canon(n["kids"][0])]
    res.check(consts == [128], "C11.R3", site(d, "fast-path-threshold"), "fast-path threshold is 128 (a varint below 128 is its own single byte)",
              "fast-path threshold is %s" % consts, d.loc(d.body))
    res.floor("C11.R3", 1)

    # ---- R5: the reader's behaviour depends only on index offset, compression and version ----------------
    res.floor("C11.R5", 1)
    STATS = {"count_entries", "count_data_blocks", "bytes_data_blocks", "bytes_index_block", "bytes_keys", "bytes_values", "data_block_size"}
    offenders = []
    for g in prog.lib_funcs():
        if g.unit in ("mtbl/metadata.c", "mtbl/writer.c") and g.file.endswith(("metadata.c", "writer.c")):
            continue
        for n in walk(g.body):
            if n["k"] == "MemberExpr" and n.get("rec") == "mtbl_metadata" and n["field"] in STATS:
                offenders.append((g, n))
    for g, n in offenders:
        res.bad("C11.R5", site(g, "reads-statistic:%s" % n["field"]),
                "reading a table depends on the trailer statistic `%s`, which carries no framing information: a well-formed file whose statistics differ from what "
                "this code expects (foreign prefix, other writer) is refused or mis-read" % n["field"], g.loc(n))
    if not offenders:
        res.ok("C11.R5", "reader:trailer-statistics-unused", "outside metadata.c and the writer nothing reads the trailer's statistics fields")

    # ---- properties this one rests on (re-run here, labelled <this>.D.<rule>) ------------------
    depends(ctx, res, 'C02', None, "lookups on independently encoded files go through the reader's lookup path")
    depends(ctx, res, 'C03', None, "seeks on independently encoded files go through the reader's seek path")
    depends(ctx, res, 'C16', None, 'decoding of every length and offset')
